"""Shared orchestration for the /verif checks (see DESIGN.md section 4)."""
import fcntl
import json
import os
import re
import shutil
import subprocess
import sys
import time
from concurrent.futures import ThreadPoolExecutor

VERIF = os.path.dirname(os.path.dirname(os.path.abspath(__file__)))
REPO = "/repo"
COQ = os.path.join(VERIF, "coq")
HARNESS = os.path.join(VERIF, "harness")
WORK = os.path.join(VERIF, "work")
EVID = os.path.join(VERIF, "evidence")
REPLAYS = os.path.join(VERIF, "replays")
KNOWN = os.path.join(VERIF, "known_findings.txt")

GOENV = dict(os.environ, GOFLAGS="-mod=mod", GOPROXY="off", GOSUMDB="off",
             GOTOOLCHAIN="local", CGO_ENABLED=os.environ.get("CGO_ENABLED", "1"))

AUDIT_RE = re.compile(
    r"\b(Admitted|admit|Axiom|Axioms|Parameter|Parameters|Conjecture|Hypothesis|Variable)\b|"
    r"Unset Guard|bypass_check|type-in-type|impredicative-set|Admit Obligations")

TRUSTED_BASE = [
    "Coq 8.16.1 kernel (coqc); vm_compute used for table theorems, examples and correspondence evaluation; native_compute not used",
    "Coq standard library only (List, ZArith, Lia, Bool, String, Ascii); no axioms declared; Print Assumptions output recorded per theorem",
    "correspondence check: differential run of the model (evaluated by vm_compute inside coqc) and the real Go code on generated inputs; bounded by its generators",
    "Go harness under /verif/harness (generators, Coq term printers), Python orchestration under /verif/lib",
]


class Ctx:
    def __init__(self, pid, tier, seed):
        self.pid = pid
        self.tier = tier
        self.seed = seed
        self.t0 = time.time()
        self.workdir = os.path.join(WORK, "%s-%d" % (pid, os.getpid()))
        shutil.rmtree(self.workdir, ignore_errors=True)
        os.makedirs(self.workdir, exist_ok=True)
        os.makedirs(EVID, exist_ok=True)
        os.makedirs(REPLAYS, exist_ok=True)
        self.violations = []      # (key, description, replay dict, found_input)
        self.known_hits = []
        self.notes = []

    def cleanup(self):
        if not os.environ.get("VERIF_KEEP"):
            shutil.rmtree(self.workdir, ignore_errors=True)


def sh(cmd, cwd=None, env=None, timeout=None, check=False, inp=None):
    p = subprocess.run(cmd, cwd=cwd, env=env, timeout=timeout, input=inp,
                       stdout=subprocess.PIPE, stderr=subprocess.STDOUT, text=True,
                       shell=isinstance(cmd, str))
    if check and p.returncode != 0:
        raise RuntimeError("command failed (%d): %s\n%s" % (p.returncode, cmd, p.stdout[-4000:]))
    return p.returncode, p.stdout


class Lock:
    def __init__(self, name):
        os.makedirs(WORK, exist_ok=True)
        self.path = os.path.join(WORK, "." + name + ".lock")

    def __enter__(self):
        self.f = open(self.path, "w")
        fcntl.flock(self.f, fcntl.LOCK_EX)
        return self

    def __exit__(self, *a):
        fcntl.flock(self.f, fcntl.LOCK_UN)
        self.f.close()


# ---------------------------------------------------------------- Coq

def coq_project_files():
    out = []
    for line in open(os.path.join(COQ, "_CoqProject")):
        line = line.strip()
        if line.endswith(".v"):
            out.append(line)
    return out


def coq_make(targets=None, timeout=3000):
    """Full .vo build (never -vos) of the whole project or the given targets.
    Returns (ok, log)."""
    with Lock("coq"):
        if (not os.path.exists(os.path.join(COQ, "Makefile")) or
                os.path.getmtime(os.path.join(COQ, "Makefile")) < os.path.getmtime(os.path.join(COQ, "_CoqProject"))):
            sh("coq_makefile -f _CoqProject -o Makefile", cwd=COQ, check=True)
        cmd = ["make", "-j16"] + (targets or [])
        rc, out = sh(cmd, cwd=COQ, timeout=timeout)
        return rc == 0, out


def coq_audit(files):
    """Refuse Admitted/admit/Axiom/... anywhere in the given sources."""
    bad = []
    for f in files:
        path = os.path.join(COQ, f)
        txt = open(path).read()
        # strip comments (non-nested is enough: we never nest them)
        txt_nc = re.sub(r"\(\*.*?\*\)", "", txt, flags=re.S)
        # string literals are data (AVP names such as "...-Parameter"), not vernacular
        txt_nc = re.sub(r'"(?:[^"]|"")*"', '""', txt_nc)
        depth = 0
        for line in txt_nc.splitlines():
            if re.match(r"\s*Section\s", line):
                depth += 1
            elif re.match(r"\s*End\s", line) and depth > 0:
                depth -= 1
            for m in AUDIT_RE.finditer(line):
                if m.group(0) in ("Variable", "Hypothesis") and depth > 0:
                    continue
                bad.append("%s: %s" % (f, m.group(0)))
    return bad


def coq_closure(files):
    """Dependency closure (within the project) of the given .v files, via coqdep."""
    rc, out = sh(["coqdep", "-Q", ".", "Verif"] + coq_project_files(), cwd=COQ)
    deps = {}
    for line in out.splitlines():
        if ":" not in line:
            continue
        lhs, rhs = line.split(":", 1)
        tgt = [t for t in lhs.split() if t.endswith(".vo")]
        if not tgt:
            continue
        v = tgt[0][:-1]
        deps[v] = [d[:-1] for d in rhs.split() if d.endswith(".vo")]
    seen, todo = set(), list(files)
    while todo:
        f = todo.pop()
        if f in seen:
            continue
        seen.add(f)
        todo.extend(deps.get(f, []))
    return sorted(seen)


THM_RE = re.compile(r"^\s*(Theorem|Lemma|Corollary|Example|Fact|Proposition)\s+([A-Za-z0-9_']+)", re.M)


def count_obligations(files):
    n, names = 0, []
    for f in files:
        txt = open(os.path.join(COQ, f)).read()
        txt = re.sub(r"\(\*.*?\*\)", "", txt, flags=re.S)
        for m in THM_RE.finditer(txt):
            n += 1
            names.append(m.group(2))
    return n, names


def print_assumptions(props_file):
    """Re-compile the property file alone and collect what Print Assumptions says.
    Returns (ok, {theorem: text}, log)."""
    with Lock("coq"):
        rc, out = sh(["coqc", "-Q", ".", "Verif", props_file], cwd=COQ, timeout=1200)
    txt = open(os.path.join(COQ, props_file)).read()
    names = re.findall(r"Print Assumptions\s+([A-Za-z0-9_']+)", txt)
    chunks = []
    cur = None
    for line in out.splitlines():
        if line.startswith("Closed under the global context"):
            chunks.append("Closed under the global context")
            cur = None
        elif line.startswith("Axioms:"):
            cur = [line]
            chunks.append(cur)
        elif cur is not None and (line.startswith(" ") or line.strip() == ""):
            cur.append(line)
        else:
            cur = None
    res = {}
    for i, nme in enumerate(names):
        c = chunks[i] if i < len(chunks) else "MISSING"
        res[nme] = c if isinstance(c, str) else "\n".join(c)
    return rc == 0, res, out


def run_case_files(files, workdir, timeout=1800, extra_q=None):
    """coqc each generated cases file (parallel); parse 'M = [...]' into a list
    of tuples of ints.  Returns (all_ok, mismatches, logs)."""
    def one(f):
        rc, out = sh(["coqc", "-Q", COQ, "Verif", f], cwd=workdir, timeout=timeout)
        return f, rc, out
    mism, logs, ok = [], [], True
    with ThreadPoolExecutor(max_workers=16) as ex:
        for f, rc, out in ex.map(one, files):
            flat = re.sub(r"\s+", " ", out)
            m = re.search(r"M = (\[.*?\])\s*: list", flat)
            if rc != 0 or not m:
                ok = False
                logs.append("%s: rc=%d %s" % (f, rc, out[-1500:]))
                continue
            body = m.group(1)
            for t in re.findall(r"\(([-0-9, ()%Z]+?)\)(?=;|\])", body):
                nums = [int(x) for x in re.findall(r"-?\d+", t)]
                mism.append(tuple(nums))
    return ok, mism, logs


# ---------------------------------------------------------------- Go harness

def go_build(cmds, tags="verif", race=False):
    """(Re)build harness commands against /repo's current working tree."""
    with Lock("go"):
        shutil.copyfile(os.path.join(REPO, "go.sum"), os.path.join(HARNESS, "go.sum"))
        os.makedirs(os.path.join(HARNESS, "bin"), exist_ok=True)
        for c in cmds:
            out = os.path.join(HARNESS, "bin", c + ("-race" if race else ""))
            cmd = ["go", "build", "-tags", tags]
            if race:
                cmd.append("-race")
            cmd += ["-o", out, "./cmd/" + c]
            rc, log = sh(cmd, cwd=HARNESS, env=GOENV, timeout=1200)
            if rc != 0:
                return False, log
    return True, ""


# ---------------------------------------------------------------- findings

def load_known():
    findings, fixed = {}, []
    if os.path.exists(KNOWN):
        for line in open(KNOWN):
            line = line.strip()
            if line.startswith("finding:"):
                m = re.match(r"finding:\s+property=(\S+)\s+key=(\S+)\s+(.*)", line)
                if m:
                    findings[(m.group(1), m.group(2))] = m.group(3)
            elif line.startswith("fixed:"):
                fixed.append(line)
    return findings, fixed


def finish(ctx, level, coverage, assumptions=None):
    """Write evidence, print KNOWN-FINDING / VIOLATION lines, return exit code."""
    findings, _ = load_known()
    real = []
    for v in ctx.violations:
        key = v["key"]
        if (ctx.pid, key) in findings:
            ctx.known_hits.append((key, findings[(ctx.pid, key)]))
        else:
            real.append(v)
    seen = set()
    for key, what in ctx.known_hits:
        if key in seen:
            continue
        seen.add(key)
        print("KNOWN-FINDING: property=%s %s [%s]" % (ctx.pid, what, key))
    ev = {
        "property_id": ctx.pid,
        "tier": ctx.tier,
        "seed": ctx.seed,
        "level": level,
        "coverage": coverage,
        "assumptions": assumptions or [],
        "wall_s": round(time.time() - ctx.t0, 2),
        "violations": len(real),
    }
    if ctx.known_hits:
        ev["coverage"]["known_findings_hit"] = sorted(seen)
    if ctx.notes:
        ev["coverage"]["notes"] = ctx.notes
    with open(os.path.join(EVID, ctx.pid + ".json"), "w") as f:
        json.dump(ev, f, indent=1, sort_keys=True)
    rc = 0
    for i, v in enumerate(real):
        path = os.path.join(REPLAYS, "%s-%d-%d.json" % (ctx.pid, ctx.seed, i))
        with open(path, "w") as f:
            json.dump(v, f, indent=1, sort_keys=True, default=str)
        tail = "" if v.get("found_input", True) else " no-failing-input-found"
        print("VIOLATION property=%s replay=%s %s%s" % (ctx.pid, path, v.get("what", ""), tail))
        rc = 1
        if i >= 4:
            break
    if rc == 0:
        print("OK property=%s tier=%s seed=%d wall=%.1fs" % (ctx.pid, ctx.tier, ctx.seed, time.time() - ctx.t0))
    ctx.cleanup()
    return rc


def proof_stage(ctx, props_file, extra_files=()):
    """Build the property's theorems; returns dict for coverage, adds violations
    when a proof obligation no longer checks."""
    files = coq_closure([props_file] + list(extra_files))
    bad = coq_audit(files)
    targets = [f + "o" for f in files]
    ok, log = coq_make(targets)
    okp, assum, plog = (False, {}, "")
    if ok:
        okp, assum, plog = print_assumptions(props_file)
    nobl, names = count_obligations(files)
    cov = {
        "obligations": nobl,
        "discharged": nobl if (ok and okp and not bad) else 0,
        "checker_cmd": "make -j16 (coq_makefile, full .vo) on %s ; coqc %s (Print Assumptions)" % (" ".join(targets[-3:]), props_file),
        "trusted_base": list(TRUSTED_BASE),
        "theorem_files": files,
        "print_assumptions": assum,
    }
    if ok and okp and ctx.tier != "quick":
        # independent re-check of the compiled files (and everything they depend on) by coqchk
        mod = "Verif." + props_file[:-2].replace("/", ".")
        with Lock("coq"):
            rc, out = sh(["coqchk", "-silent", "-o", "-Q", ".", "Verif", mod], cwd=COQ, timeout=3600)
        summary = re.sub(r"\s+", " ", out[out.find("CONTEXT SUMMARY"):] if "CONTEXT SUMMARY" in out else out[-400:]).strip()
        cov["coqchk"] = {"cmd": "coqchk -silent -o -Q . Verif " + mod, "exit": rc, "summary": summary[:600]}
        cov["checker_cmd"] += " ; coqchk -silent -o " + mod
        if rc != 0 or "Axioms: <none>" not in summary:
            okp = False
            plog = "coqchk: " + summary
            cov["discharged"] = 0
    axioms = sorted({k for k, v in assum.items() if "Closed under the global context" not in v})
    if axioms:
        cov["trusted_base"].append("axioms reported by Print Assumptions for: " + ", ".join(axioms))
    if bad:
        ctx.violations.append({"key": "audit", "what": "forbidden construct in Coq sources: " + "; ".join(bad[:5]),
                               "found_input": False, "theorem": props_file})
    if not ok or not okp:
        errlog = (log if not ok else plog)
        m = re.search(r'File "\./([^"]+)", line (\d+)', errlog)
        where = "%s:%s" % (m.group(1), m.group(2)) if m else props_file
        ctx.proof_broken = {"where": where, "log": errlog[-3000:]}
    else:
        ctx.proof_broken = None
    return cov
