#!/bin/sh
# usage: lib/seedconfirm.sh <seed dir with patch.diff run_demo.sh meta.json> <scratch worktree>
# confirms: patch applies, builds, existing tests pass with it, demo fails with it and passes without
D=$1; W=$2
export GOFLAGS=-mod=mod GOPROXY=off GOSUMDB=off GOTOOLCHAIN=local
cd $W && git checkout -q -- . && git clean -fdq
git apply $D/patch.diff || { echo "APPLY-FAIL"; exit 1; }
go build ./... || { echo "BUILD-FAIL"; git checkout -q -- .; exit 1; }
T=$(go test -vet=off -count=1 ./... 2>&1 | grep -c "^FAIL")
sh $D/run_demo.sh $W >/dev/null 2>&1; WITH=$?
git checkout -q -- . && git clean -fdq
sh $D/run_demo.sh $W >/dev/null 2>&1; WITHOUT=$?
git checkout -q -- . && git clean -fdq
echo "tests_failing_pkgs=$T demo_with_patch_exit=$WITH demo_without_exit=$WITHOUT"
[ "$T" = "0" ] && [ "$WITH" != "0" ] && [ "$WITHOUT" = "0" ] && echo CONFIRMED
