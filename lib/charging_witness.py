#!/usr/bin/env python3
"""Concrete witnesses for the charging-core defects (run against the real CHF through
harness/cmd/chargesim).  Kept as a regression corpus: run before and after the fix: commits;
the outputs are stored under findings/."""
import json, subprocess, sys, os, tempfile

BIN = "/verif/harness/bin/chargesim"

def body(supi, seq=1, rg=1, req=100, used=0, consumer="smf1", triggers=None, online=True, extra=None, nfc=True, requ=True, cid=7):
    uuc = [{"quotaManagementIndicator": "ONLINE_CHARGING" if online else "OFFLINE_CHARGING", "totalVolume": used, "uplinkVolume": 0, "downlinkVolume": used, "localSequenceNumber": seq}]
    muu = {"ratingGroup": rg, "usedUnitContainer": uuc}
    if requ:
        muu["requestedUnit"] = {"totalVolume": req}
    b = {"subscriberIdentifier": supi, "invocationSequenceNumber": seq, "notifyUri": "$NOTIFY/cb", "chargingId": cid, "multipleUnitUsage": [muu]}
    if nfc:
        b["nfConsumerIdentification"] = {"nFName": consumer, "nodeFunctionality": "SMF"}
    if triggers:
        b["triggers"] = triggers
    if extra:
        b.update(extra)
    return b

FINAL = [{"triggerType": "FINAL", "triggerCategory": "IMMEDIATE_REPORT"}]

def run(ops, timeout="12s"):
    d = tempfile.mkdtemp(prefix="cw", dir="/verif/work")
    p = subprocess.run([BIN, "-dir", d, "-timeout", timeout], input="\n".join(json.dumps(o) for o in ops) + "\n", capture_output=True, text=True)
    out = [json.loads(l) for l in p.stdout.splitlines() if l.startswith("{")]
    subprocess.run(["rm", "-rf", d])
    return out

def ref(o):
    return o["location"].rsplit("/", 1)[-1]

def show(title, lines):
    print("== " + title)
    for l in lines:
        print("   " + l)

def main():
    S = "imsi-208930000055001"
    # C06: balance 0 -> still granted, then overdraft
    r = run([{"op": "account", "supi": S, "rg": 1, "quota": "0", "unitCost": "2"}, {"op": "create", "body": body(S)}])
    rf = ref(r[1])
    r2 = run([{"op": "account", "supi": S, "rg": 1, "quota": "0", "unitCost": "2"}, {"op": "create", "body": body(S)},
              {"op": "update", "ref": rf, "body": body(S, 2, used=0)}, {"op": "update", "ref": rf, "body": body(S, 3, used=100)},
              {"op": "release", "ref": rf, "body": body(S, 4, used=0, triggers=FINAL)}])
    mui = (r2[2]["body"] or {}).get("multipleUnitInformation", [{}])[0]
    show("C06 balance 0, request 100 (cost 2), then use the grant", [
        "update#1 granted=%s fui=%s" % ((mui.get("grantedUnit") or {}).get("totalVolume"), mui.get("finalUnitIndication")),
        "balances after ops: %s" % [o["db"][S + "|1"]["quota"] for o in r2[1:]],
        "want: granted 0 with final-unit indication, balance never negative"])
    # C12: release status, unknown session, stale reference
    S2 = "imsi-208930000055002"
    r = run([{"op": "account", "supi": S2, "rg": 1, "quota": "1000", "unitCost": "1"}, {"op": "create", "body": body(S2)}])
    rf = ref(r[1])
    r = run([{"op": "account", "supi": S2, "rg": 1, "quota": "1000", "unitCost": "1"}, {"op": "create", "body": body(S2)},
             {"op": "update", "ref": "nosuchsession", "body": body(S2, 2, used=0)},
             {"op": "update", "ref": rf, "body": body(S2, 3, used=10)},
             {"op": "release", "ref": rf, "body": body(S2, 4, used=5, triggers=FINAL)},
             {"op": "update", "ref": rf, "body": body(S2, 5, used=0)}])
    show("C12 unknown session / release status / stale reference", [
        "update to 'nosuchsession': status %s, balance %s -> %s, reserved %s" % (r[2]["status"], r[1]["db"][S2 + "|1"]["quota"], r[2]["db"][S2 + "|1"]["quota"], r[2]["ues"][S2]["reserved"]),
        "release: status %s (want 204)" % r[4]["status"],
        "update after release (stale ref): status %s, balance %s -> %s (want 4xx, no effect)" % (r[5]["status"], r[4]["db"][S2 + "|1"]["quota"], r[5]["db"][S2 + "|1"]["quota"])])
    # C02: two sessions, update for the older one
    S3 = "imsi-208930000055003"
    r = run([{"op": "account", "supi": S3, "rg": 1, "quota": "100000", "unitCost": "1"}, {"op": "create", "body": body(S3, consumer="smfA", cid=11)}, {"op": "create", "body": body(S3, consumer="smfB", cid=22)}])
    ra, rb = ref(r[1]), ref(r[2])
    r = run([{"op": "account", "supi": S3, "rg": 1, "quota": "100000", "unitCost": "1"}, {"op": "create", "body": body(S3, consumer="smfA", cid=11)}, {"op": "create", "body": body(S3, consumer="smfB", cid=22)},
             {"op": "update", "ref": ra, "body": body(S3, 2, used=33, cid=11)}])
    show("C02 update for the older of two sessions", ["records muu counts after update of session A: %s (want usage appended to A's record)" % [(x["sessionId"][-5:], x["usages"]) for x in r[3]["ues"][S3]["records"]]])
    # C10 collision
    S4 = "imsi-208930000055004"
    r = run([{"op": "create", "body": body(S4, consumer="a1")}] + [{"op": "create", "body": body("imsi-2089300000559%02d" % i)} for i in range(10)] + [{"op": "create", "body": body(S4, consumer="a")}])
    refs = [ref(o) for o in r if o["status"] == 201]
    show("C10 session references", ["first=%s last=%s distinct=%d of %d (lrsn-dependent; see Coq C10 witness)" % (refs[0], refs[-1], len(set(refs)), len(refs))])
    # C11 crash sites
    S5 = "imsi-208930000055005"
    r = run([{"op": "account", "supi": S5, "rg": 1, "quota": "1000", "unitCost": "1"},
             {"op": "create", "body": body(S5, nfc=False)},
             {"op": "create", "body": body(S5)}], timeout="3s")
    show("C11 create without nfConsumerIdentification, then a normal create", ["statuses %s hung %s (want 4xx then 201)" % ([o["status"] for o in r[1:]], [o["hung"] for o in r[1:]])])
    S6 = "imsi-208930000055006"
    r = run([{"op": "account", "supi": S6, "rg": 1, "quota": "1000", "unitCost": "1"}, {"op": "create", "body": body(S6)}])
    rf = ref(r[1])
    r = run([{"op": "account", "supi": S6, "rg": 1, "quota": "1000", "unitCost": "1"}, {"op": "create", "body": body(S6)},
             {"op": "update", "ref": rf, "body": body(S6, 2, requ=False)},
             {"op": "recharge", "param": "nounderscore"},
             {"op": "create", "body": body("imsi-208930000055007", extra={"pDUSessionChargingInformation": {"chargingId": 1}})},
             {"op": "create", "body": body("imsi-208930000055008", extra={"nfConsumerIdentification": {"nFName": "x", "nodeFunctionality": "SMF", "nFPLMNID": {"mcc": "20", "mnc": "9"}}})}], timeout="3s")
    show("C11 update without requestedUnit / recharge without '_' / create with partial PDU info / short MCC", ["statuses %s (want 4xx or 2xx, never 5xx)" % [o["status"] for o in r[2:]]])

if __name__ == "__main__":
    main()
