"""Regenerate every *Gen.v file from /repo's working tree (translators in
harness/cmd/gen*).  Files are rewritten only when their content changed so
that make stays incremental."""
import os
import common


def write_if_changed(path, content):
    old = open(path).read() if os.path.exists(path) else None
    if old != content:
        with open(path, "w") as f:
            f.write(content)
        return True
    return False


def regenerate_all():
    return []
