"""Regenerate every *Gen.v file from /repo's working tree (translators in
harness/cmd/gen*).  Files are rewritten only when their content changed so
that make stays incremental."""
import os
import re
import shutil
import common
from common import sh, HARNESS, COQ, GOENV, REPO, Lock


def regenerate_ber():
    """cdrType registry (go/parser) -> reflect -> coq/Ber/SchemaGen.v"""
    with Lock("go"):
        shutil.copyfile(os.path.join(REPO, "go.sum"), os.path.join(HARNESS, "go.sum"))
        rc, out1 = sh(["go", "run", "./cmd/genreg", os.path.join(REPO, "cdr/cdrType"),
                       os.path.join(HARNESS, "cdrreg/registry_gen.go")], cwd=HARNESS, env=GOENV, timeout=600)
        if rc != 0:
            raise RuntimeError("genreg failed:\n" + out1[-3000:])
        rc, out2 = sh(["go", "run", "-tags", "verif", "./cmd/genschema", os.path.join(COQ, "Ber/SchemaGen.v")],
                      cwd=HARNESS, env=GOENV, timeout=600)
        if rc != 0:
            raise RuntimeError("genschema failed:\n" + out2[-3000:])
    info = {}
    m = re.search(r"schema types=(\d+) struct=(\d+) defs=(\d+)", out2)
    if m:
        info = {"schema_types": int(m.group(1)), "struct_types": int(m.group(2)), "definitions": int(m.group(3))}
    info["notes"] = [l[6:] for l in out2.splitlines() if l.startswith("note: ")]
    return info


def regenerate_routes():
    ok, log = common.go_build(["routeprobe"])
    if not ok:
        raise RuntimeError(log[-3000:])
    d = os.path.join(common.WORK, "genroutes")
    os.makedirs(d, exist_ok=True)
    rc, out = sh([os.path.join(HARNESS, "bin", "routeprobe"), d, os.path.join(COQ, "Router/RoutesGen.v")], timeout=600)
    if rc != 0:
        raise RuntimeError("routeprobe failed:\n" + out[-3000:])
    return out.strip()


def regenerate_dict():
    ok, log = common.go_build(["dictgen"])
    if not ok:
        raise RuntimeError(log[-3000:])
    rc, out = sh([os.path.join(HARNESS, "bin", "dictgen"), os.path.join(COQ, "Diam/DictGen.v")], timeout=300)
    if rc != 0:
        raise RuntimeError("dictgen failed:\n" + out[-3000:])
    return out.strip()


def regenerate_tags():
    ok, log = common.go_build(["tagsgen"])
    if not ok:
        raise RuntimeError(log[-3000:])
    rc, out = sh([os.path.join(HARNESS, "bin", "tagsgen"), os.path.join(COQ, "Config/TagsGen.v")], timeout=300)
    if rc != 0:
        raise RuntimeError("tagsgen failed:\n" + out[-3000:])
    return out.strip()


def regenerate_sites():
    ok, log = common.go_build(["sitesgen"])
    if not ok:
        raise RuntimeError(log[-3000:])
    rc, out = sh([os.path.join(HARNESS, "bin", "sitesgen"), "/repo", os.path.join(COQ, "Resources/SitesGen.v")], timeout=300)
    if rc != 0:
        raise RuntimeError("sitesgen failed:\n" + out[-3000:])
    return out.strip().splitlines()[-1]


def regenerate_clients():
    ok, log = common.go_build(["clientgen"])
    if not ok:
        raise RuntimeError(log[-3000:])
    rc, out = sh([os.path.join(HARNESS, "bin", "clientgen"), "/repo", os.path.join(COQ, "Client/ClientGen.v")], timeout=300)
    if rc != 0:
        raise RuntimeError("clientgen failed:\n" + out[-3000:])
    return out.strip().splitlines()


def regenerate_accesses():
    ok, log = common.go_build(["accessgen"])
    if not ok:
        raise RuntimeError(log[-3000:])
    rc, out = sh([os.path.join(HARNESS, "bin", "accessgen"), "/repo", os.path.join(COQ, "Conc/AccessGen.v")], timeout=300)
    if rc != 0:
        raise RuntimeError("accessgen failed:\n" + out[-3000:])
    return out.strip().splitlines()[-1]


def regenerate_all():
    info = {"ber": regenerate_ber(), "routes": regenerate_routes(), "dict": regenerate_dict(), "tags": regenerate_tags(),
            "sites": regenerate_sites(), "clients": regenerate_clients(), "accesses": regenerate_accesses()}
    return info
