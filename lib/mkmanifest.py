#!/usr/bin/env python3
"""Regenerates /verif/MANIFEST.json from the table below (run by hand when a check is added)."""
import json, os
V = os.path.dirname(os.path.dirname(os.path.abspath(__file__)))
props = [json.loads(l)["id"] for l in open(os.path.join(V, "properties.jsonl"))]
NOTE = ("Trusted: Coq 8.16.1 kernel + vm_compute; the hand-written executable model (tied to the code by a differential "
        "correspondence run on every check, bounded by its generators) and the translators that regenerate tables from /repo; "
        "the Go harness printers and Python orchestration; no axioms (Print Assumptions: closed under the global context)")
TECH = "machine-checked proof in Coq on an executable model + model/implementation correspondence check"
claimed = {
 "C14": "Theorem C14_roundtrip (all well-formed structures, any number of records/payloads, all 64 identifier pairs) on an executable model of cdrFile.go; model tied to the code by a correspondence run of the real Encoding/Decoding; C14 monitor evaluated on the implementation's own output",
 "C15": "Theorem C15_layout: an independent TS 32.297 reader recovers every field from enc_file f for all well-formed f; enc_file tied to the real CDRFile.Encoding byte for byte; the reader is also applied to the bytes Go wrote",
 "C04": "Theorems C04_no_panic and C04_matches_reference (encoder model = independent X.690 reference encoder, all values x all type descriptors) instantiated to the 195 schema types regenerated from /repo (C04_schema); encoder model tied to asn.BerMarshalWithParams by correspondence on schema, random reflect.StructOf and primitive types; reference applied to Go's own bytes",
 "C05": "Theorem C05_roundtrip: dec (enc v) = v for all type descriptors and all values whose exercised part lies in the decoder's language (unbounded depth/size); OID/open types are errors; schema regenerated from /repo; models tied to the real Marshal/Unmarshal by correspondence; round-trip monitor on the implementation; known finding C05/untagged-member proved as C05_untagged_refuted",
 "C16": "Theorem C16_total: for all byte strings and all type descriptors the decoder model returns value or error, never Panic (out-of-range access) or OutOfFuel (non-termination); error-class lemmas; decoder model tied to asn.UnmarshalWithParams on malformed/mutated/arbitrary inputs plus an exhaustive Go-side sweep of short inputs; known finding C16/wrong-type-accepted proved as C16_wrong_type_refuted",
 "C07": "Theorems C07_reserve/refund/terminate/echo/unknown/frame and C07_sequence (running balance over any CCR sequence = fold of a one-number specification) on the model of pkg/abmf handleCCR; model tied to the real server (abmf.OpenServer, real Diameter/TLS connections, fake MongoDB) by request-sequence correspondence; the statement of C07 is also evaluated on the implementation's own answers and balances; known finding C07/int64-overflow proved as C07_refund_overflow_refuted",
 "C08": "Theorems C08_answers (every stored unit-cost string), C08_agree, C08_debit, C08_reserve on the model of pkg/rf handleSUR/buildTaffif and the CHF's getUnitCost; tied to the real rating server over Diameter and to the real CHF (ChfUe.UnitCost after an update) on adversarial unit-cost strings; exact-pricing monitor on the implementation's own answers",
 "C01": "Theorem C01_round: one credit-control round (reserve or debit mode, with the ABMF and RF models behind it) lowers balance + reservation by exactly unit cost x reported usage and touches no other account; charging model (Chf.v) tied to the real CHF end to end (router, processor, Diameter, RF/ABMF, fake MongoDB) on interactively generated histories compared field by field; the accounting identity is also evaluated over every observed history; known finding C01/usage-in-create-not-rated",
 "C06": "Theorems C06_grant_limited (reserve mode: grant = what balance + unconsumed reservation buys, final-unit indication iff that is less than requested, balance >= 0, grant backed by the reservation) and C06_debit_no_overdraft on the model; tie and monitors as C01 with low-balance strata; known findings C06/no-final-unit-indication-in-debit-mode and C06/shared-reservation-across-sessions",
 "C02": "Theorems C02_update_appends, C02_identity_kept and C02_timestamp (BCD time stamp decodes to the instant and offset for every zone offset) on the model; records of the model compared with ChfUe.Records after every operation (content, order, BER size); exactly-once / identity / cause monitor over every observed history incl. two-session and record-splitting histories; TimeStampToCdr compared on all 1681 minute offsets",
 "C03": "Theorem C03_dump_wf: the file dumpCdrFile writes is a well-formed TS 32.297 file whenever every record encoding fits 16 bits (via the C14/C15 theorems); record sizes of the model (BER encoder model on the regenerated schema) compared with the real encodings; the independent reader + generic TLV walker are run in Coq on the bytes of /tmp/<supi>.cdr; known finding C03/record-exceeds-65535 proved as C03_oversize_refuted",
 "C10": "Theorems C10_reference_determines_counter (any SUPI and consumer text) and C10_unique (NoDup of the references handed out in any history) on the model; references, session map and record counter compared with the CHF on adversarial-name histories; uniqueness/designation monitor on the observed state. Concurrent creates are C09's subject",
 "C09": "Theorems C09_mutual_exclusion (in any execution where locks behave as locks and accesses are made by the holder of the variable's guard, two accesses by different tasks under one lock are separated by the first task's release: no data race, critical sections - the handlers - do not interleave per subscriber), C09_no_deadlock (tasks respecting the lock order cannot wait in a cycle) and C09_table on the access table regenerated from internal/sbi/processor and internal/context each run (go/ast with call-graph locksets: every access to the subscriber / global state holds its guard, lock order CULock before context mutex, no check-then-act on the subscriber pool). Partial: the real stack under the race detector, bursts of 2..16 concurrent requests (same subscriber, same new SUPI, different subscribers) under GOMAXPROCS 1/2/4/16 with quiescent checks (no race report, crash or hang; accounting identity; containers recorded exactly once; acknowledged sessions usable) - interleavings are sampled, not enumerated",
 "C19": "Theorems C19_sound (for any history of starts, deliveries - delayed, repeated, after the request returned, while a later request waits - timeouts and returns, every answer a request acts on is its own, no handler stays blocked and no later request blocks) and C19_own_answer on the client facts regenerated from the two Diameter clients each run (go/ast: per-request buffered channel, non-blocking handler send, connection check, close on return); C19_original_refuted / C19_closing_only_refuted show the histories that blocked the earlier code. Partial: scenarios through the real stack with a fault-injecting relay between the clients and their servers (delay beyond the timer, drop, repeat, late repeat; rating and account-balance peer; different positions) - the model, fed the relay's log, must predict whether a request hangs; the monitor requires every request to complete and to be granted what it asked for",
 "C18": "Theorems C18_bounded (in every history of exchanges, any interleaving, the established Diameter connections never outnumber the exchanges in flight, and at quiescence no connection and no task serving one is left) and C18_sites_closed on the table of Dial call sites regenerated from /repo/internal each run (go/ast: closed on every path after the dial); C18_unclosed_site_leaks shows n requests leave n connections otherwise. Partial: established connections to the rating / account-balance ports (/proc/self/net/tcp) and goroutine counts measured after every operation of N = 10, 100 (1000 thorough) online-charging updates against the model's count and a fixed bound; runtime goroutine numbers are bounded, not predicted",
 "C20": "Theorems C20_sound (for arbitrary verdicts of the leaf validators, a configuration accepted by Config.Validate passes every configuration read of the start-up path and of the first charging request without a nil pointer and registers no route twice), C20_rejects_missing_section / _scheme / _service / _duplicate_service, C20_tables_supported, over the struct-tag tables regenerated from pkg/factory each run; model of ValidateStruct + the validate methods and of the start-up reads compared with one child process per configuration (factory.ReadConfig, service.NewApp, Start against a stub NRF) over the presence lattice of sections and leaf variants; crash / must-reject monitor on the observed outcomes",
 "C17": "Theorems C17_roundtrip (every in-range value of the four message structs is marshalled without error, the octets parse back to the same AVPs when each fits the 24-bit AVP length, and the receiver's Unmarshal rebuilds the value sent; proved for any tables passing the check: C17_roundtrip_any_tables) and C17_tables (every avp tag names a defined AVP of exactly the Go field's type resolvable by code, siblings have distinct codes, no two names share a (code, vendor), no name has two definitions, both commands defined) on the dictionary/tag tables regenerated from /repo each run; model octets and received values compared with go-diameter's real Marshal/WriteTo/ReadMessage/Unmarshal on boundary-heavy random messages; sent = received monitor on the implementation's output",
 "C13": "Theorems C13_all_protected (every route registered by the router model, for any service list, lies inside a group carrying the authorization check; a token the verifier refuses is answered 401 and reaches no handler) and C13_routes_agree_and_probes_401 on the table regenerated each run from the real gin engine: for all 16 service lists Engine.Routes() equals the model's routes and every route x 7 bad-token kinds was answered 401 (exhaustive)",
 "C12": "Theorems C12_reject_no_effect (a 4xx answer leaves the whole world unchanged), C12_create, C12_recharge, C12_statuses on the model; statuses, Location, echo, balances, reservations, records, notifications compared with the CHF incl. unknown-subscriber / unknown, stale and foreign reference requests; contract and no-effect monitor on the observed trace",
 "C11": "Theorems C11_no_5xx and C11_rejected_then_next on the model (modelled request language); exhaustive presence lattice over the optional members (all subsets up to size 2 + sample in quick, all 1024 subsets in thorough) x {create, update, release}, MCC/MNC lengths, SUPI shapes and recharging parameters against the real router, each followed by a well-formed request with a deadline (no 5xx, no hang)",
}
checks = []
for pid, text in claimed.items():
    checks.append({
        "property_id": pid,
        "quick_cmd": "./check %s --tier quick" % pid,
        "thorough_cmd": "./check %s --tier thorough" % pid,
        "evidence_file": "/verif/evidence/%s.json" % pid,
        "replay_cmd_template": "./check %s --replay {path}" % pid,
        "engine": "coq",
        "level_claimed": {"category": "proof", "text": text, "design_ref": "DESIGN.md section 5 " + pid},
        "level_note": NOTE,
        "technique": TECH,
    })
hooks = []
try:
    import subprocess
    out = subprocess.run(["git", "-C", "/repo", "log", "--format=%H %s"], capture_output=True, text=True).stdout
    hooks = [l.split()[0] for l in out.splitlines() if "verif hook" in l]
except Exception:
    pass
m = {
 "version": 1,
 "setup_cmd": "./setup.sh",
 "hooks": {"guard": "verif", "enable": "go build -tags verif (harness module github.com/free5gc/chf/verifh with replace => /repo)",
           "baseline_off_cmd": "cd /repo && go test -vet=off -count=1 ./...", "source_commits": hooks, "add_only": True},
 "engines": [{"name": "coq", "path": "/verif/coq", "serves_properties": sorted(claimed),
              "kind_free_text": "Coq 8.16.1 development: executable Gallina models, theorems, correspondence evaluators; Go harness under /verif/harness"}],
 "checks": checks,
 "not_applicable": [{"property_id": p, "reason": "check under construction in this session (to be claimed; see DESIGN.md)"} for p in props if p not in claimed],
 "notes": "See DESIGN.md. Every check regenerates tables from /repo, rebuilds the Coq development (full .vo), rebuilds the Go harness against /repo's working tree and runs the correspondence.",
}
json.dump(m, open(os.path.join(V, "MANIFEST.json"), "w"), indent=1)
print("claimed:", sorted(claimed))
