#!/bin/sh
# runs every thorough check in turn; one line per property with the time taken
cd /verif
for id in ${@:-C13 C17 C20 C18 C19 C09 C14 C15 C04 C05 C16 C07 C08 C01 C06 C10 C12 C02 C11 C03}; do
  s=$(date +%s)
  r=$(./check $id --tier thorough 2>&1 | grep -E "^(OK|VIOLATION|CHECK-ERROR)" | tail -2 | cut -c1-200 | tr "\n" " ")
  e=$(date +%s)
  echo "$id $((e-s))s $r"
done
