import os, sys
sys.path.insert(0, os.path.dirname(os.path.abspath(__file__)))
import common
import gen_all

gen_all.regenerate_all()
ok, log = common.coq_make()
if not ok:
    print(log[-6000:])
    sys.exit(1)
cmds = sorted(d for d in os.listdir(os.path.join(common.HARNESS, "cmd")))
ok, log = common.go_build(cmds)
if not ok:
    print(log[-6000:])
    sys.exit(1)
print("setup ok: coq built, harness commands:", " ".join(cmds))
