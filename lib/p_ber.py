"""C04 / C05 / C16: BER codec (cdr/asn).  Theorems in coq/Ber; schema regenerated
from /repo/cdr/cdrType on every run; model tied to the code by correspondence
(harness/cmd/bercorr) with the property monitors evaluated in Coq on the
implementation's own outputs."""
import os
import re
from common import *
import gen_all

CODES = {
    1: "enc(model) != outcome of Go BerMarshalWithParams",
    2: "dec(model) on Go's bytes != outcome of Go UnmarshalWithParams",
    3: "C04 monitor: Go's bytes differ from the reference X.690 encoding of the value",
    31: "C04 monitor: character string without string type encoded with universal tag 0",
    4: "C05 monitor: Go decode(encode(v)) != v",
    41: "C05 monitor: decode(encode(v)) != v for an EXPLICIT-tagged type",
    5: "C04 monitor: Go BerMarshal panicked",
    6: "dec(model) != outcome of Go UnmarshalWithParams on arbitrary bytes",
    7: "C16 monitor: Go Unmarshal panicked or did not terminate",
    71: "C16 monitor: wrongly-typed input (identifier octets are not the ones the target type and parameters call for) accepted as a value",
    72: "C16 monitor: truncated input (the outer header announces more contents than there are) accepted as a value",
}
# which codes decide which property: (correspondence codes, monitor codes)
ROLE = {
    "C04": ([1], [3, 31, 5]),
    "C05": ([1, 2], [4, 41]),
    "C16": ([6, 2], [7, 71, 72]),
}
KNOWN_KEYS = {}
PROPS = {"C04": "Ber/PropsC04.v", "C05": "Ber/PropsC05.v", "C16": "Ber/PropsC16.v"}


def read_index(path):
    idx = {}
    for line in open(path):
        f = line.rstrip("\n").split("\t")
        idx[int(f[0])] = {"kind": f[1], "params": f[2], "hash": f[3], "nontrivial": f[4] == "true",
                          "len": int(f[5]), "input": f[6]}
    return idx


def run(ctx, replay=None):
    pid = ctx.pid
    geninfo = gen_all.regenerate_ber()
    cov = proof_stage(ctx, PROPS[pid], ["Ber/Corr.v"])
    cov["regenerated"] = {"Ber/SchemaGen.v": geninfo}
    ok, log = go_build(["bercorr"])
    if not ok:
        raise RuntimeError("harness build failed:\n" + log[-3000:])
    quick = ctx.tier == "quick"
    mode = "dec" if pid == "C16" else "rt"
    n = (1500 if quick else 20000)
    shards = 16 if quick else 96
    binp = os.path.join(HARNESS, "bin", "bercorr")
    rc, out = sh([binp, "-seed", str(ctx.seed), "-n", str(n), "-mode", mode, "-shards", str(shards),
                  "-out", ctx.workdir], timeout=3000)
    if rc != 0:
        raise RuntimeError("bercorr failed:\n" + out[-3000:])
    classes = {}
    for line in out.splitlines():
        if line.startswith("class "):
            _, c, k = line.split()
            classes[c] = int(k)
    index = read_index(os.path.join(ctx.workdir, mode + "_index.tsv"))
    prefix = "DecCases" if mode == "dec" else "BerCases"
    okc, mism, logs = run_case_files(["%s%d.v" % (prefix, i) for i in range(shards)], ctx.workdir, timeout=3000)
    if not okc and ctx.proof_broken is None:
        raise RuntimeError("case evaluation failed:\n" + "\n".join(logs)[:3000])
    sweep = None
    if pid == "C16":
        rc, sout = sh([binp, "-mode", "sweep", "-sweeplen", "2" if quick else "3", "-out", ctx.workdir], timeout=3000)
        m = re.search(r'sweep total=(\d+) panics=(\d+) first="(.*)"', sout)
        if not m:
            raise RuntimeError("sweep failed:\n" + sout[-2000:])
        sweep = {"inputs_x_types": int(m.group(1)), "panics": int(m.group(2)), "first": m.group(3),
                 "max_len": 2 if quick else 3}
    by_code = {}
    for cid, code in mism:
        by_code.setdefault(code, []).append(cid)
    corr_codes, mon_codes = ROLE[pid]
    outside = by_code.pop(90, [])
    outside_other = by_code.pop(92, [])

    def rep(cid, code):
        e = index.get(cid, {})
        return {"property": pid, "seed": ctx.seed, "tier": ctx.tier, "case_id": cid, "code": code,
                "meaning": CODES[code], "input": e.get("input"), "kind": e.get("kind"), "params": e.get("params"),
                "rerun": "VERIF_SEED=%d ./check %s --tier %s" % (ctx.seed, pid, ctx.tier)}

    found = False
    for code in mon_codes:
        if code in by_code:
            cid = min(by_code[code])
            r = rep(cid, code)
            r["key"] = KNOWN_KEYS.get(code, "%s/code%d" % (pid, code))
            r["what"] = "%s (case %d: %s)" % (CODES[code], cid, (r["input"] or "")[:160])
            r["found_input"] = True
            ctx.violations.append(r)
            if code not in KNOWN_KEYS:
                found = True
    if sweep and sweep["panics"] > 0:
        ctx.violations.append({"property": pid, "key": "C16/sweep-panic", "found_input": True,
                               "what": "Go Unmarshal panicked on " + sweep["first"], "input": sweep["first"]})
        found = True
    corr_broken = [c for c in corr_codes if c in by_code]
    if not found and (corr_broken or ctx.proof_broken):
        if corr_broken:
            code = corr_broken[0]
            cid = min(by_code[code])
            r = rep(cid, code)
            r["key"] = "%s/corr%d" % (pid, code)
            r["what"] = "correspondence broken: %s (case %d: %s)" % (CODES[code], cid, (r["input"] or "")[:160])
            r["broken"] = "correspondence Ber/Corr.v code %d" % code
        else:
            r = {"property": pid, "key": pid + "/proof",
                 "what": "proof obligation no longer checks at " + ctx.proof_broken["where"],
                 "broken": ctx.proof_broken["where"], "log": ctx.proof_broken["log"]}
        r["found_input"] = False
        ctx.violations.append(r)
    nontriv = {v["hash"] for v in index.values() if v["nontrivial"]}
    kinds = {}
    for v in index.values():
        k = v["kind"].split(":")[0]
        kinds[k] = kinds.get(k, 0) + 1
    schema_hit = len({v["kind"] for v in index.values() if v["kind"].startswith("schema:")})
    cov.update({
        "evaluations": len(index) + (sweep["inputs_x_types"] if sweep else 0),
        "distinct_nontrivial": len(nontriv),
        "rule": ("rt: one third values of the 195 schema types (round robin, all hit), one third random reflect.StructOf types "
                 "(SEQUENCE/SET/CHOICE/SEQUENCE OF/Value and List wrappers, tag numbers 0..2^21, optional, set, string kinds, "
                 "an EXPLICIT stratum), one third primitives with top-level parameters; integers 0,+-1,+-2^k,+-2^k+-1, min/max, 3-octet, random; "
                 "lengths 0,1,126..128,255,256,65535+; bit strings incl. multiples of 8; optional members present with depth-decaying probability; "
                 "invalid CHOICE Present. dec: fixed malformed corpus x primitive/schema types, then truncation, bit flip, length overshoot, "
                 "trailing bytes, byte replacement and identifier rewriting (other form, class, tag number, high tag numbers; outermost element two times in three, nested ones otherwise) of valid encodings and random short strings; plus a Go-side exhaustive sweep of all short inputs. "
                 "non-trivial = encodes to more than 2 octets (rt) / non-empty input (dec); distinct by hash of (type, params, value/bytes)"),
        "samples": [v["input"] for k, v in sorted(index.items())[:4]],
        "input_distribution": {"value_classes": classes, "case_kinds": kinds, "schema_types_exercised": schema_hit},
        "mismatches": {str(k): len(v) for k, v in by_code.items()},
        "marshalled_values_outside_C05_hypotheses": {"explicit_tagging": len(outside), "other": len(outside_other),
                                                     "examples_other": [index.get(c, {}).get("input", "")[:400] for c in sorted(outside_other)[:5]]} if mode == "rt" else None,
    })
    if sweep:
        cov["exhaustive_sweep"] = sweep
    return finish(ctx, "proof", cov, assumptions=[
        "Go int/int64 members are 64-bit two's complement (no int32 members in the schema; translator reports them)",
        "values of ill-typed (type, value) pairs cannot be built in Go; theorems assume well-typed values",
        "the schema translator (reflect walk + re-implementation of the ber tag parser) is trusted; the real tag parser is exercised by the correspondence",
    ])
