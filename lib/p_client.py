"""C19: late or lost Diameter answers neither cross-talk nor block later requests.
Translator: harness/cmd/clientgen regenerates coq/Client/ClientGen.v (how each Diameter client waits for
its answer and how its handler delivers it, read from the sources with go/ast).
Correspondence: scenarios through the real stack with a fault-injecting relay (harness/faultproxy) between
the CHF's clients and its rating / account-balance servers: answers delayed beyond the 5 s timer, dropped,
repeated at once or later, at different positions, followed by prompt requests of the same subscriber.
The client events are reconstructed from the relay's log; the model must predict whether a request hangs;
the monitor checks that every request completes and is granted what it asked for itself."""
import os
import re
import random
from concurrent.futures import ThreadPoolExecutor
from common import *
import p_charging as pc

SUPI = "imsi-208930000019%03d"


def body(supi, seq, used, lsn, req):
    return {"subscriberIdentifier": supi, "nfConsumerIdentification": {"nFName": "smf1", "nodeFunctionality": "SMF"},
            "invocationSequenceNumber": seq, "notifyUri": "$NOTIFY/cb1", "chargingId": 1,
            "multipleUnitUsage": [{"ratingGroup": 1, "requestedUnit": {"totalVolume": req},
                                   "usedUnitContainer": [{"quotaManagementIndicator": "ONLINE_CHARGING", "totalVolume": used, "localSequenceNumber": lsn}]}]}


def scenarios(tier, rng):
    out = []
    kinds = [("ok", 0, 0), ("dup", 0, 0), ("drop", 0, 0), ("delay", 6000, 1500), ("delay", 6000, 0), ("delay", 4000, 0),
             ("latedup", 30, 0), ("latedup", 6000, 1500), ("delay", 5000, 300)]
    for peer in ("rf", "abmf"):
        for (k, ms, pause) in kinds:
            for pos in ([0, 1] if (tier != "quick" or k in ("dup", "delay")) and peer == "rf" else [0]):
                out.append({"peer": peer, "kind": k, "ms": ms, "pause": pause, "pos": pos})
    # a late answer arriving while the next exchange of the same request is itself waiting (its own answer late, but in time)
    for peer in ("rf", "abmf"):
        out.append({"peer": peer, "kind": "delay", "ms": 7000, "pause": 0, "pos": 0, "script": [{"kind": "delay", "ms": 7000}, {"kind": "delay", "ms": 4000}]})
    if tier != "quick":
        for _ in range(24):
            out.append({"peer": rng.choice(["rf", "abmf"]), "kind": rng.choice(["dup", "delay", "latedup", "drop"]), "ms": rng.choice([20, 3000, 5200, 7000]),
                        "pause": rng.choice([0, 500, 2500]), "pos": rng.choice([0, 1, 2]), "second": rng.choice(["dup", "drop", "ok"])})
    return out


def run_scenario(args):
    idx, sc, workdir = args
    class C:      # a private work directory for this chargesim
        pass
    c = C()
    c.workdir = os.path.join(workdir, "sc%d" % idx)
    os.makedirs(c.workdir, exist_ok=True)
    sim = pc.Sim(c, extra=["-faults", "-timeout", "16s"])
    supi = SUPI % idx
    ops = []
    try:
        sim.do({"op": "account", "supi": supi, "rg": 1, "quota": "100000000", "unitCost": "1"})
        o = sim.do({"op": "create", "body": body(supi, 1, 0, 1, 100)})
        ref = o["location"].rsplit("/", 1)[-1]
        o = sim.do({"op": "update", "ref": ref, "body": body(supi, 2, 0, 2, 100)})
        base_rf, base_ab = len(o.get("rfEvents") or []), len(o.get("abmfEvents") or [])
        script = [{"kind": "ok"}] * sc["pos"] + [{"kind": sc["kind"], "ms": sc["ms"]}]
        if sc.get("script"):
            script = sc["script"]
        if sc.get("second"):
            script += [{"kind": "ok"}, {"kind": sc["second"], "ms": 0}]
        sim.do({"op": "fault", "peer": sc["peer"], "actions": script})
        t = 0.0
        for i, req in enumerate([5000, 7000, 9000, 11000]):
            if i == 1 and sc["pause"]:
                sim.do({"op": "sleep", "ms": sc["pause"]})
                t += sc["pause"] / 1000.0
            o = sim.do({"op": "update", "ref": ref, "body": body(supi, 3 + i, 100, 3 + i, req)})
            b = o.get("body") if isinstance(o.get("body"), dict) else {}
            g = [m.get("grantedUnit") for m in b.get("multipleUnitInformation") or []]
            granted = (g[0] or {}).get("totalVolume") if g else None
            ops.append({"req": req, "status": o["status"], "hung": bool(o.get("hung")), "ms": o["elapsed_ms"], "granted": granted, "start": t,
                        "rf": len(o.get("rfEvents") or []), "abmf": len(o.get("abmfEvents") or [])})
            t += o["elapsed_ms"] / 1000.0
            last = o
        events = {"rf": (last.get("rfEvents") or [])[base_rf:], "abmf": (last.get("abmfEvents") or [])[base_ab:]}
    finally:
        sim.close()
    return {"idx": idx, "sc": sc, "ops": ops, "events": events, "base": {"rf": base_rf, "abmf": base_ab}}


def model_events(r, peer):
    """client events of one peer's client, from the relay's log and the timing of the operations"""
    evs = r["events"][peer]
    base = r["base"][peer]
    ops = r["ops"]
    # which operation an exchange belongs to: by the relay's cumulative count after each operation
    def op_of(seq):
        for k, o in enumerate(ops):
            if seq <= o[peer]:
                return k
        return len(ops) - 1
    timeline = []      # (time, order, event)
    n = 0
    for e in evs:
        k = op_of(e["seq"])
        t0 = ops[k]["start"] + 0.001 * (e["seq"] - base)
        c = e["conn"]
        n += 1
        kind, ms = e["kind"], e["ms"]
        if kind in ("ok",):
            timeline += [(t0, n, "Start %d" % c), (t0 + 0.0001, n, "Deliver %d" % c), (t0 + 0.0002, n, "Return %d" % c)]
        elif kind == "dup":
            timeline += [(t0, n, "Start %d" % c), (t0 + 0.0001, n, "Deliver %d" % c), (t0 + 0.00015, n, "Deliver %d" % c), (t0 + 0.0002, n, "Return %d" % c)]
        elif kind == "drop":
            timeline += [(t0, n, "Start %d" % c), (t0 + 5.0, n, "Timeout %d" % c), (t0 + 5.0001, n, "Return %d" % c)]
        elif kind == "delay" and ms < 5000:
            timeline += [(t0, n, "Start %d" % c), (t0 + ms / 1000.0, n, "Deliver %d" % c), (t0 + ms / 1000.0 + 0.0001, n, "Return %d" % c)]
        elif kind == "delay":
            timeline += [(t0, n, "Start %d" % c), (t0 + 5.0, n, "Timeout %d" % c), (t0 + 5.0001, n, "Return %d" % c), (t0 + ms / 1000.0 + 0.01, n, "Deliver %d" % c)]
        elif kind == "latedup":
            timeline += [(t0, n, "Start %d" % c), (t0 + 0.0001, n, "Deliver %d" % c), (t0 + 0.0002, n, "Return %d" % c), (t0 + ms / 1000.0, n, "Deliver %d" % c)]
    # an operation that hung never reached the relay: its first exchange blocked before dialling
    for k, o in enumerate(ops):
        if o["hung"] and peer == r["sc"]["peer"]:
            timeline.append((o["start"], 10 ** 6 + k, "Start %d" % (9000 + k)))
    timeline.sort(key=lambda x: (x[0], x[1]))
    return [e for (_, _, e) in timeline]


def run(ctx, replay=None):
    ok, log = go_build(["clientgen", "chargesim"])
    if not ok:
        raise RuntimeError("harness build failed:\n" + log[-3000:])
    gen = os.path.join(COQ, "Client/ClientGen.v")
    with Lock("coq"):
        rc, out = sh([os.path.join(HARNESS, "bin", "clientgen"), "/repo", gen], timeout=300)
    if rc != 0 or "client " not in out:
        raise RuntimeError("clientgen failed:\n" + out[-2000:])
    facts = [l for l in out.splitlines() if l.startswith("client ")]
    cov = proof_stage(ctx, "Client/PropsC19.v", ["Client/Corr.v"])
    cov["regenerated"] = {"Client/ClientGen.v": facts}
    rng = random.Random(ctx.seed * 7919 + 19)
    scs = scenarios(ctx.tier, rng)
    with ThreadPoolExecutor(max_workers=12) as ex:
        res = list(ex.map(run_scenario, [(i, sc, ctx.workdir) for i, sc in enumerate(scs)]))
    found = False
    stats = {"hung_ops": 0, "timeouts_seen": 0, "ops": 0}
    for r in res:
        sc = r["sc"]
        for k, o in enumerate(r["ops"]):
            stats["ops"] += 1
            stats["timeouts_seen"] += 1 if 4500 <= o["ms"] < 16000 else 0
            if o["hung"]:
                stats["hung_ops"] += 1
                if not found:
                    found = True
                    ctx.violations.append({"property": "C19", "key": "C19/later-request-blocked", "found_input": True,
                                           "what": "after the %s answer no. %d of an update was %s%s, update no. %d of the same subscriber did not complete within 16 s"
                                                   % (sc["peer"], sc["pos"] + 1, sc["kind"], (" by %d ms" % sc["ms"]) if sc["ms"] else "", k + 1),
                                           "replay": {"scenario": sc, "operations": r["ops"], "relay_log": r["events"]}})
            elif o["status"] == 200 and o["granted"] is not None and o["granted"] != o["req"] and not found:
                found = True
                ctx.violations.append({"property": "C19", "key": "C19/answer-of-another-request", "found_input": True,
                                       "what": "update no. %d requested %d units and was granted %s: it acted on an answer that was not its own (%s answer no. %d %s by %d ms)"
                                               % (k + 1, o["req"], o["granted"], sc["peer"], sc["pos"] + 1, sc["kind"], sc["ms"]),
                                       "replay": {"scenario": sc, "operations": r["ops"], "relay_log": r["events"]}})
    # an answer that was due within the timer but found its connection closed: the request it answers had already
    # finished - on somebody else's answer
    for r in res:
        for peer in ("rf", "abmf"):
            for e in r["events"][peer]:
                if e["kind"] == "delay" and e["ms"] < 4800 and e["written"] == 0 and not found:
                    found = True
                    ctx.violations.append({"property": "C19", "key": "C19/answer-of-another-request", "found_input": True,
                                           "what": "the %s exchange no. %d finished before its own answer, due after %d ms, arrived (the relay found the connection closed): "
                                                   "the request acted on an answer that was not its own" % (peer, e["seq"], e["ms"]),
                                           "replay": {"scenario": r["sc"], "operations": r["ops"], "relay_log": r["events"]}})
    # ---- correspondence
    cases = []
    for r in res:
        for peer, name in (("rf", "SendServiceUsageRequest"), ("abmf", "SendAccountDebitRequest")):
            evs = model_events(r, peer)
            hung = any(o["hung"] for o in r["ops"]) and peer == r["sc"]["peer"]
            cases.append('(%d%%Z, "%s"%%string, [%s], %s)' % (r["idx"] * 2 + (0 if peer == "rf" else 1), name, "; ".join(evs), "true" if hung else "false"))
    fn = "CliCases0.v"
    with open(os.path.join(ctx.workdir, fn), "w") as f:
        f.write("From Coq Require Import String List Arith ZArith.\nFrom Verif Require Import Client.Model Client.ClientGen Client.Corr.\nImport ListNotations.\n"
                "Definition cases : list scase := [\n" + ";\n".join(cases) + "\n].\nDefinition M := Eval vm_compute in run_client cases.\nPrint M.\n")
    mism = []
    if ctx.proof_broken is None or os.path.exists(os.path.join(COQ, "Client/Corr.vo")):
        okc, mism, logs = run_case_files([fn], ctx.workdir, timeout=1800)
        if not okc and ctx.proof_broken is None:
            raise RuntimeError("case evaluation failed:\n" + "\n".join(logs)[:3000])
    if not found and ctx.proof_broken:
        ctx.violations.append({"property": "C19", "key": "C19/proof", "found_input": False,
                               "what": "theorem no longer checks at %s; clients: %s" % (ctx.proof_broken["where"], " | ".join(facts)),
                               "broken": ctx.proof_broken["where"], "log": ctx.proof_broken["log"]})
    elif not found and mism:
        ctx.violations.append({"property": "C19", "key": "C19/corr", "found_input": False,
                               "what": "correspondence broken: the model and the CHF disagree on whether a request hangs or on whose answer it used (case %d code %d)" % (mism[0][0], mism[0][1]),
                               "broken": "correspondence Client/Corr.v"})
    cov.update({"evaluations": len(res), "distinct_nontrivial": len(res), "exhaustive": False, "mismatches": len(mism),
                "input_distribution": {"scenarios": [r["sc"] for r in res], **stats},
                "rule": "per scenario one subscriber: create, warm-up update, then four updates with growing requested volume (5000..11000); one answer of the first of them, at position 1-3 "
                        "of its rating or account-balance exchanges, is delivered / repeated at once / repeated 30 ms or 6 s later / delayed 4, 5 or 6 s (timer 5 s) / dropped; the next "
                        "update follows at once or after 0.3-2.5 s; thorough adds random combinations with a second fault. Deadline per request 16 s",
                "samples": [{"scenario": r["sc"], "ops": [(o["status"], o["ms"], o["granted"]) for o in r["ops"]]} for r in res[:4]]})
    return finish(ctx, "proof", cov, assumptions=[
        "partial: the model is the client's bookkeeping (channel, handler, mux lock, connection); real time enters only through the order of events reconstructed from the relay's log and the operations' durations",
        "clientgen recognises the channel made in the sending function, the select-with-default send and the `c != conn` test by their syntax; another way of writing them is reported as absent (the proof then breaks although the property may hold)",
        "the go-diameter state machine (mux read lock around handlers, write lock in Handle) is modelled from its source, not verified"])
