#!/bin/sh
# runs every quick check on the current tree (evidence files are rewritten); prints one line per property
cd /verif
for id in C01 C02 C03 C04 C05 C06 C07 C08 C09 C10 C11 C12 C13 C14 C15 C16 C17 C18 C19 C20; do
  ./check $id --tier ${1:-quick} 2>&1 | grep -E "^(OK|VIOLATION|CHECK-ERROR)" | tail -1 | cut -c1-160
done
